"""Engine-level monitors shared by C02, C03, C09, C11: every law is evaluated on the real engine after
*every* step of every run; the protocol recognisers of the Lean model (ledger, step ordering,
WFHistory, notification automaton) are run over what the engine did."""
import json, copy
import common, explore, enginerun, machgen, fanproto, framecmp
from common import cj, pj
from machgen import FN, ARN


def T(fn, **kw):
    st = {"Type": "Task", "Resource": FN + fn}
    st.update(kw)
    if "Next" not in st:
        st["End"] = True
    return st


def corpus(rng, quick):
    """hand-written scenarios: sequential, fan-out success, fan-out with one unhandled failure"""
    out = []
    S = explore.Scenario
    out.append(S("seq-pass", {"StartAt": "A", "States": {"A": {"Type": "Pass", "Next": "B"}, "B": {"Type": "Pass", "End": True}}}, {"x": 1}))
    out.append(S("seq-task-wait", {"StartAt": "T", "States": {"T": T("f1", Next="W"), "W": {"Type": "Wait", "Seconds": 2, "Next": "S"},
                                                                "S": {"Type": "Succeed"}}}, {"x": 1}, {"f1": [("ok",)]}, {"f1": 30}))
    out.append(S("seq-fail", {"StartAt": "A", "States": {"A": {"Type": "Pass", "Next": "F"}, "F": {"Type": "Fail", "Error": "E", "Cause": "c"}}}, {}))
    out.append(S("seq-choice", {"StartAt": "C", "States": {"C": {"Type": "Choice", "Choices": [{"Variable": "$.n", "NumericEquals": 1, "Next": "A"}], "Default": "B"},
                                                             "A": {"Type": "Succeed"}, "B": {"Type": "Fail"}}}, {"n": 1}))
    out.append(S("seq-nochoice", {"StartAt": "C", "States": {"C": {"Type": "Choice", "Choices": [{"Variable": "$.n", "NumericEquals": 1, "Next": "A"}]},
                                                               "A": {"Type": "Succeed"}}}, {"n": 2}))
    out.append(S("seq-task-error", {"StartAt": "T", "States": {"T": T("f1")}}, {}, {"f1": [("err", "Boom", "m")]}))
    out.append(S("seq-retry-then-ok", {"StartAt": "T", "States": {"T": T("f1", Retry=[{"ErrorEquals": ["States.ALL"], "IntervalSeconds": 1, "MaxAttempts": 2}])}},
                 {}, {"f1": [("err", "Boom", "m"), ("ok",)]}))
    out.append(S("seq-catch", {"StartAt": "T", "States": {"T": T("f1", Catch=[{"ErrorEquals": ["Boom"], "Next": "R", "ResultPath": "$.e"}]),
                                                            "R": {"Type": "Pass", "End": True}}}, {"a": 1}, {"f1": [("err", "Boom", "m")]}))
    out.append(S("seq-path-error", {"StartAt": "A", "States": {"A": {"Type": "Pass", "InputPath": "$.nope", "End": True}}}, {"x": 1}))
    out.append(S("seq-express", {"StartAt": "A", "States": {"A": {"Type": "Pass", "Next": "T"}, "T": T("f1")}}, {"x": 1}, {"f1": [("ok",)]},
                 sm_type="EXPRESS"))
    par = lambda k, fail=None, end=True: {"StartAt": "P", "States": {
        "P": dict({"Type": "Parallel", "Branches": [
            {"StartAt": "B%d" % i, "States": {"B%d" % i: T("f%d" % i)}} for i in range(k)]},
            **({"End": True} if end else {"Next": "Z"})),
        "Z": {"Type": "Pass", "End": True}}}
    for k in (2, 3):
        out.append(S("par%d-ok" % k, par(k), {"x": 1}, {"f%d" % i: [("ok",)] for i in range(k)}, {"f%d" % i: 10 * (i + 1) for i in range(k)}))
        out.append(S("par%d-ok-next" % k, par(k, end=False), {"x": 1}, {"f%d" % i: [("ok",)] for i in range(k)}, {"f%d" % i: 10 * (k - i) for i in range(k)}))
        for bad in range(k):
            out.append(S("par%d-fail%d" % (k, bad), par(k), {"x": 1},
                         {"f%d" % i: [("err", "Boom", "m")] if i == bad else [("ok",)] for i in range(k)},
                         {"f%d" % i: 10 * (i + 1) for i in range(k)}))
    mp = lambda mc, **kw: {"StartAt": "M", "States": {"M": dict({"Type": "Map", "ItemsPath": "$.items", "MaxConcurrency": mc,
                                                                   "Iterator": {"StartAt": "T", "States": {"T": T("g")}}, "End": True}, **kw)}}
    for mc in (0, 1, 2):
        out.append(S("map3-mc%d-ok" % mc, mp(mc), {"items": [1, 2, 3]}, {"g": [("ok",)]},
                     {("g", "1"): 30, ("g", "2"): 10, ("g", "3"): 20}))
        out.append(S("map3-mc%d-fail" % mc, mp(mc), {"items": [1, 2, 3]}, {"g": [("ok",)]},
                     {("g", "1"): 30, ("g", "2"): 10, ("g", "3"): 20}, extra={"fail_item": 2}))
    out.append(S("map-empty", mp(0), {"items": []}, {"g": [("ok",)]}))
    # a fan-out whose failing branch is a Fail state while a sibling waits / has a task outstanding
    out.append(S("par-failstate-vs-wait", {"StartAt": "P", "States": {"P": {"Type": "Parallel", "End": True, "Branches": [
        {"StartAt": "W", "States": {"W": {"Type": "Wait", "Seconds": 5, "End": True}}},
        {"StartAt": "F", "States": {"F": {"Type": "Fail", "Error": "E", "Cause": "c"}}},
        {"StartAt": "T", "States": {"T": T("f1")}}]}}}, {}, {"f1": [("ok",)]}, {"f1": 50}))
    # a nested fan-out whose event is still queued when its sibling fails
    out.append(S("par-fail-vs-nested", {"StartAt": "P", "States": {"P": {"Type": "Parallel", "End": True, "Branches": [
        {"StartAt": "F", "States": {"F": {"Type": "Fail", "Error": "E", "Cause": "c"}}},
        {"StartAt": "IP", "States": {"IP": {"Type": "Parallel", "End": True, "Branches": [
            {"StartAt": "X", "States": {"X": {"Type": "Pass", "End": True}}}]}}}]}}}, {}))
    # an empty Map state that ends a branch: its own event is the one held for the join (C03-F4)
    out.append(S("par-empty-map-branch", {"StartAt": "P", "States": {"P": {"Type": "Parallel", "End": True, "Branches": [
        {"StartAt": "A", "States": {"A": T("f1")}},
        {"StartAt": "M", "States": {"M": {"Type": "Map", "ItemsPath": "$.items", "End": True,
                                          "Iterator": {"StartAt": "T", "States": {"T": T("g")}}}}}]}}},
                 {"items": []}, {"g": [("ok",)], "f1": [("ok",)]}, {"f1": 15}))
    out.append(S("map-of-empty-maps", {"StartAt": "M", "States": {"M": {"Type": "Map", "ItemsPath": "$.items", "MaxConcurrency": 1, "End": True,
        "Iterator": {"StartAt": "IM", "States": {"IM": {"Type": "Map", "End": True,
                                                          "Iterator": {"StartAt": "T", "States": {"T": T("g")}}}}}}}},
                 {"items": [[], [1], []]}, {"g": [("ok",)]}, {"g": 10}))
    # nested fan-out, success
    out.append(S("nested-ok", {"StartAt": "P", "States": {"P": {"Type": "Parallel", "End": True, "Branches": [
        {"StartAt": "M", "States": {"M": {"Type": "Map", "ItemsPath": "$.items", "End": True,
                                          "Iterator": {"StartAt": "T", "States": {"T": T("g")}}}}},
        {"StartAt": "A", "States": {"A": T("f1")}}]}}}, {"items": [1, 2]}, {"g": [("ok",)], "f1": [("ok",)]}, {"g": 10, "f1": 15}))
    # nested fan-outs with a failure that is caught inside while a sibling fails outside (CAUGHT slots, late continuation events)
    inner = {"Type": "Parallel", "End": True, "Branches": [
        {"StartAt": "IA", "States": {"IA": T("fa")}}, {"StartAt": "IB", "States": {"IB": T("fb")}}],
        "Catch": [{"ErrorEquals": ["EA"], "Next": "IC", "ResultPath": "$.e"}]}
    nm = {"StartAt": "P", "States": {"P": {"Type": "Parallel", "End": True, "Branches": [
        {"StartAt": "IN", "States": {"IN": inner, "IC": {"Type": "Pass", "End": True}}},
        {"StartAt": "O", "States": {"O": T("fo")}}]}}}
    for (pa, po, tag) in [([("err", "EA", "m")], [("ok",)], "inner-caught"), ([("err", "EA", "m")], [("err", "EO", "m")], "both"),
                          ([("ok",)], [("err", "EO", "m")], "outer-fails")]:
        for d in ({"fa": 10, "fb": 30, "fo": 20}, {"fa": 30, "fb": 10, "fo": 5}):
            out.append(S("nested-%s-%d" % (tag, d["fa"]), nm, {"x": 1}, {"fa": pa, "fb": [("ok",)], "fo": po}, d))
    # a branch that catches its own task error and carries on while a sibling fails
    out.append(S("branch-catch-vs-sibling-fail", {"StartAt": "P", "States": {"P": {"Type": "Parallel", "End": True, "Branches": [
        {"StartAt": "A", "States": {"A": T("fa", Catch=[{"ErrorEquals": ["EA"], "Next": "R"}], Next="R"), "R": T("fr")}},
        {"StartAt": "B", "States": {"B": T("fb")}}]}}}, {"x": 1},
        {"fa": [("err", "EA", "m")], "fr": [("ok",)], "fb": [("err", "EB", "m")]}, {"fa": 5, "fr": 40, "fb": 20}))
    # a fan-out whose failure is handled (retried / caught) while a nested fan-out of a sibling branch is still running:
    # the nested state's late result must not complete the failed attempt
    def outer(handler, nested):
        return {"StartAt": "P", "States": {"P": dict({"Type": "Parallel", "Next": "Z", "Branches": [
            {"StartAt": "A", "States": {"A": T("fa")}},
            {"StartAt": "N", "States": {"N": nested}}]}, **handler), "Z": {"Type": "Pass", "End": True},
            "R": {"Type": "Pass", "Result": "recovered", "End": True}}}
    npar = {"Type": "Parallel", "End": True, "Branches": [{"StartAt": "X", "States": {"X": T("fx")}},
                                                          {"StartAt": "W", "States": {"W": {"Type": "Wait", "Seconds": 1, "End": True}}}]}
    nmap = {"Type": "Map", "ItemsPath": "$.items", "MaxConcurrency": 1, "End": True,
            "Iterator": {"StartAt": "X", "States": {"X": T("fx")}}}
    for hn, handler in (("retry", {"Retry": [{"ErrorEquals": ["EA"], "IntervalSeconds": 1, "MaxAttempts": 1, "BackoffRate": 1.0}]}),
                        ("catch", {"Catch": [{"ErrorEquals": ["EA"], "Next": "R"}]}),
                        ("retry-ok", {"Retry": [{"ErrorEquals": ["EA"], "IntervalSeconds": 3, "MaxAttempts": 2}]})):
        for nn, nested in (("par", npar), ("map", nmap)):
            out.append(S("handled-fail-vs-nested-%s-%s" % (nn, hn), outer(handler, nested), {"items": [1, 2]},
                         {"fa": [("err", "EA", "m")] + ([("ok",)] if hn == "retry-ok" else []), "fx": [("ok",)]}, {"fa": 5, "fx": 40}))
    # ... and while the nested Map's *re-entry event* (MaxConcurrency: first batch just joined) is still queued: the failing
    # branch takes two Pass hops, so that under the canonical schedule the Map's task is requested first, both replies are
    # published at the same instant, the Map's is handled first (join, re-entry event published) and the failure second —
    # the re-entry event is then dropped with its never-launched slots (C03-F5's path, reached by no schedule before)
    for hn, handler in (("none", {}), ("catch", {"Catch": [{"ErrorEquals": ["EA"], "Next": "R"}]}),
                        ("retry-ok", {"Retry": [{"ErrorEquals": ["EA"], "IntervalSeconds": 3, "MaxAttempts": 2}]})):
        m = {"StartAt": "P", "States": {"P": dict({"Type": "Parallel", "Next": "Z", "Branches": [
            {"StartAt": "N", "States": {"N": json.loads(json.dumps(nmap))}},
            {"StartAt": "A0", "States": {"A0": {"Type": "Pass", "Next": "A1"}, "A1": {"Type": "Pass", "Next": "A"}, "A": T("fa")}}]}, **handler),
            "Z": {"Type": "Pass", "End": True}, "R": {"Type": "Pass", "Result": "recovered", "End": True}}}
        out.append(S("handled-fail-vs-nested-map-reentry-%s" % hn, m, {"items": [1, 2]},
                     {"fa": [("err", "EA", "m")] + ([("ok",)] if hn == "retry-ok" else []), "fx": [("ok",)]}, {"fa": 10, "fx": 10}))
    # a branch fails while a sibling is pending in a Task / Wait that has a Retry or Catch of its own (States.ALL,
    # States.TaskFailed), or sits in a nested fan-out that has one: the cancellation (Task.Terminated) of the sibling must go
    # through none of them — flat unhandled / caught / retried enclosing state
    sib_catch = [{"ErrorEquals": ["States.ALL"], "Next": "SR"}]
    siblings = (
        ("task-catch-all", {"StartAt": "B", "States": {"B": T("fb", Catch=sib_catch), "SR": {"Type": "Pass", "End": True}}}),
        ("task-catch-taskfailed", {"StartAt": "B", "States": {"B": T("fb", Catch=[{"ErrorEquals": ["States.TaskFailed"], "Next": "SR"}]),
                                                               "SR": {"Type": "Pass", "End": True}}}),
        ("task-retry-all", {"StartAt": "B", "States": {"B": T("fb", Retry=[{"ErrorEquals": ["States.ALL"], "IntervalSeconds": 1, "MaxAttempts": 2}])}}),
        ("nested-catch-wait", {"StartAt": "N", "States": {"N": {"Type": "Parallel", "Next": "SR", "Catch": sib_catch, "Branches": [
            {"StartAt": "W", "States": {"W": {"Type": "Wait", "Seconds": 2, "Next": "WP"}, "WP": {"Type": "Pass", "End": True}}}]},
            "SR": {"Type": "Pass", "End": True}}}),
        ("nested-catch-task", {"StartAt": "N", "States": {"N": {"Type": "Parallel", "Next": "SR", "Catch": sib_catch, "Branches": [
            {"StartAt": "B", "States": {"B": T("fb")}}]}, "SR": {"Type": "Pass", "End": True}}}),
    )
    for hn, handler in (("none", {}), ("catch", {"Catch": [{"ErrorEquals": ["EA"], "Next": "R"}]}),
                        ("retry", {"Retry": [{"ErrorEquals": ["EA"], "IntervalSeconds": 1, "MaxAttempts": 1}]})):
        for sn, sib in siblings:
            m = {"StartAt": "P", "States": {"P": dict({"Type": "Parallel", "Next": "Z", "Branches": [
                {"StartAt": "A", "States": {"A": T("fa")}}, json.loads(json.dumps(sib))]}, **handler),
                "Z": {"Type": "Pass", "End": True}, "R": {"Type": "Pass", "Result": "recovered", "End": True}}}
            out.append(S("par-fail-vs-handled-sibling-%s-%s" % (sn, hn), m, {"x": 1},
                         {"fa": [("err", "EA", "m"), ("ok",)], "fb": [("ok",)]}, {"fa": 5, "fb": 400}))
    # a branch / iteration whose (successful) last state outputs an object with an "Error" member: an Error Output handed on by
    # a Catch, or just data that looks like one; its StateExited is logged like any other
    out.append(S("branch-catch-then-succeed", {"StartAt": "P", "States": {"P": {"Type": "Parallel", "End": True, "Branches": [
        {"StartAt": "A", "States": {"A": T("fa", Catch=[{"ErrorEquals": ["EA"], "Next": "R"}]), "R": {"Type": "Pass", "End": True}}},
        {"StartAt": "B", "States": {"B": T("fb")}}]}}}, {"x": 1},
        {"fa": [("err", "EA", "m")], "fb": [("ok",)]}, {"fa": 5, "fb": 20}))
    out.append(S("branch-inband-error-output", {"StartAt": "P", "States": {"P": {"Type": "Parallel", "Next": "Z", "Branches": [
        {"StartAt": "A", "States": {"A": {"Type": "Pass", "Result": {"Error": "inband", "Cause": "data"}, "End": True}}},
        {"StartAt": "B", "States": {"B": {"Type": "Succeed"}}}]}, "Z": {"Type": "Pass", "End": True}}}, {"Error": "in input"}))
    out.append(S("map-inband-error-items", {"StartAt": "M", "States": {"M": {"Type": "Map", "ItemsPath": "$.items", "MaxConcurrency": 1, "End": True,
        "Iterator": {"StartAt": "W", "States": {"W": {"Type": "Wait", "Seconds": 1, "Next": "X"}, "X": {"Type": "Pass", "End": True}}}}}},
        {"items": [{"Error": "e1"}, {"ok": 1}, {"Error": "Task.Terminated"}]}))
    # a transition that is refused (output over the size limit, or no Next at all): the consequence of the event is then
    # issued by the error path (Catch successor or terminal record + notification), which the acknowledgement must follow
    big = {"big": "x" * 140000, "items": [1, 2]}
    dup = {"b.$": "$.big"}
    catch = [{"ErrorEquals": ["States.ALL"], "Next": "R", "ResultPath": None}]
    R = {"Type": "Pass", "Result": "recovered", "End": True}
    for tag, extra in (("", {}), ("-catch", {"Catch": catch})):
        out.append(S("oversize-task" + tag, {"StartAt": "T", "States": {"T": T("f1", Next="Z", ResultPath="$.dup", **extra),
                                                                        "Z": {"Type": "Pass", "End": True}, "R": R}},
                     big, {"f1": [("ok",)]}, {"f1": 10}))
        out.append(S("oversize-parallel" + tag, {"StartAt": "P", "States": {"P": dict({"Type": "Parallel", "Next": "Z", "Branches": [
            {"StartAt": "A", "States": {"A": {"Type": "Pass", "End": True}}},
            {"StartAt": "B", "States": {"B": T("f1")}}]}, **extra), "Z": {"Type": "Pass", "End": True}, "R": R}},
                     big, {"f1": [("ok",)]}, {"f1": 10}))
        out.append(S("oversize-map" + tag, {"StartAt": "M", "States": {"M": dict({"Type": "Map", "ItemsPath": "$.items", "Next": "Z",
            "ItemSelector": dup, "ResultPath": "$.dup", "ItemProcessor": {"StartAt": "A", "States": {"A": {"Type": "Pass", "End": True}}}},
            **extra), "Z": {"Type": "Pass", "End": True}, "R": R}}, big))
        out.append(S("nonext-task" + tag, {"StartAt": "T", "States": {"T": dict({"Type": "Task", "Resource": FN + "f1"}, **extra), "R": R}},
                     {"x": 1}, {"f1": [("ok",)]}, {"f1": 10}))
    out.append(S("oversize-pass", {"StartAt": "A", "States": {"A": {"Type": "Pass", "Parameters": dup, "ResultPath": "$.dup", "Next": "Z"},
                                                                 "Z": {"Type": "Pass", "End": True}}}, big))
    out.append(S("oversize-empty-map", {"StartAt": "M", "States": {"M": {"Type": "Map", "ItemsPath": "$.none", "Next": "Z",
        "ResultSelector": {"b.$": "$$.Execution.Input.big"}, "ResultPath": "$.dup", "Iterator": {"StartAt": "A", "States": {"A": {"Type": "Pass", "End": True}}}},
        "Z": {"Type": "Pass", "End": True}}}, dict(big, none=[])))
    out.append(S("nonext-pass", {"StartAt": "A", "States": {"A": {"Type": "Pass"}}}, {"x": 1}))
    out.append(S("nonext-wait", {"StartAt": "W", "States": {"W": {"Type": "Wait", "Seconds": 1}}}, {"x": 1}))
    # the "long form" of a function call (Resource …:rpcmessage:invoke[.waitForTaskToken] with Parameters.FunctionName /
    # Payload): its request goes under a correlation id with a suffix, so cancelling it when a sibling fails takes the
    # canceller's own key; alone, pending while a sibling fails (unhandled / caught / retried), and in a Map iteration
    INVOKE = "arn:aws:states:local::rpcmessage:invoke"
    inv = lambda fn, **kw: dict({"Type": "Task", "Resource": INVOKE, "Parameters": {"FunctionName": FN + fn, "Payload": {"x.$": "$.x"}}, "End": True}, **kw)
    out.append(S("seq-invoke-longform", {"StartAt": "T", "States": {"T": inv("f1")}}, {"x": 1}, {"f1": [("ok",)]}, {"f1": 20}))
    for tag, extra in (("", {}), ("-catch", {"Catch": [{"ErrorEquals": ["States.ALL"], "Next": "R"}]}),
                       ("-retry", {"Retry": [{"ErrorEquals": ["States.ALL"], "IntervalSeconds": 1, "MaxAttempts": 1}]})):
        out.append(S("par-invoke-longform-vs-fail" + tag, {"StartAt": "P", "States": {"P": dict({"Type": "Parallel", "End": True, "Branches": [
            {"StartAt": "A", "States": {"A": inv("f1")}},
            {"StartAt": "B", "States": {"B": T("f2")}}]}, **extra), "R": {"Type": "Pass", "End": True}}},
                     {"x": 1}, {"f1": [("ok",)], "f2": [("err", "Boom", "m")]}, {"f1": 80, "f2": 10}))
    out.append(S("map-invoke-longform-vs-fail", {"StartAt": "M", "States": {"M": {"Type": "Map", "ItemsPath": "$.items", "End": True,
        "Iterator": {"StartAt": "C", "States": {"C": {"Type": "Choice", "Choices": [{"Variable": "$.x", "NumericEquals": 2, "Next": "F"}], "Default": "A"},
                                                 "A": inv("f1"), "F": {"Type": "Fail", "Error": "Bad", "Cause": "item"}}}}}},
                 {"items": [{"x": 1}, {"x": 2}, {"x": 3}]}, {"f1": [("ok",)]}, {"f1": 60}))
    # the execution's time limit runs out inside a Wait / a Task / a fan-out with both: the execution fails with States.Timeout
    # and nothing of it is left behind (cancellers, timers, held events)
    out.append(S("seq-wait-exec-timeout", {"TimeoutSeconds": 2, "StartAt": "W", "States": {"W": {"Type": "Wait", "Seconds": 10, "End": True}}}, {"x": 1}))
    out.append(S("seq-task-exec-timeout", {"TimeoutSeconds": 2, "StartAt": "T", "States": {"T": T("f1")}}, {"x": 1}, {"f1": [("ok",)]}, {"f1": 9000}))
    out.append(S("par-wait-task-exec-timeout", {"TimeoutSeconds": 2, "StartAt": "P", "States": {"P": {"Type": "Parallel", "End": True, "Branches": [
        {"StartAt": "W", "States": {"W": {"Type": "Wait", "Seconds": 10, "End": True}}},
        {"StartAt": "T", "States": {"T": T("f1")}}]}}}, {"x": 1}, {"f1": [("ok",)]}, {"f1": 9000}))
    # definitions the engine cannot interpret at one site (C18's subject; here only the lifecycle / ledger / history laws are
    # evaluated, the reference semantics is not asked): the empty string as a branch's StartAt or as a transition target —
    # an event whose state name is empty is what the engine takes for the start of a new execution
    PASS_END = {"Type": "Pass", "End": True}
    ill = {
        "branch-startat-empty": {"StartAt": "P", "States": {"P": {"Type": "Parallel", "End": True, "Branches": [
            {"StartAt": "A", "States": {"A": T("f1")}}, {"StartAt": "", "States": {"B": PASS_END}}]}}},
        "branch-startat-empty-named": {"StartAt": "P", "States": {"P": {"Type": "Parallel", "End": True, "Branches": [
            {"StartAt": "", "States": {"": PASS_END}}, {"StartAt": "A", "States": {"A": T("f1")}}]}}},
        "iterator-startat-empty": {"StartAt": "M", "States": {"M": {"Type": "Map", "ItemsPath": "$.items", "End": True,
            "Iterator": {"StartAt": "", "States": {"": PASS_END}}}}},
        "next-empty": {"StartAt": "A", "States": {"A": {"Type": "Pass", "Next": ""}, "": PASS_END}},
        "catch-next-empty": {"StartAt": "T", "States": {"T": T("f1", Catch=[{"ErrorEquals": ["States.ALL"], "Next": ""}])}},
        "branch-next-empty": {"StartAt": "P", "States": {"P": {"Type": "Parallel", "End": True, "Branches": [
            {"StartAt": "A", "States": {"A": {"Type": "Pass", "Next": ""}}}, {"StartAt": "B", "States": {"B": T("f1")}}]}}},
    }
    for k, mach in ill.items():
        out.append(S("illformed-" + k, mach, {"x": 1, "items": [1, 2]}, {"f1": [("err", "Boom", "m")] if "catch" in k else [("ok",)]}, {"f1": 20},
                     extra={"illformed": True}))
    out.append(S("oversize-branch-task", {"StartAt": "P", "States": {"P": {"Type": "Parallel", "End": True, "Branches": [
        {"StartAt": "T", "States": {"T": T("f1", Next="Z", ResultPath="$.dup"), "Z": {"Type": "Pass", "End": True}}},
        {"StartAt": "B", "States": {"B": T("f2")}}]}}}, big, {"f1": [("ok",)], "f2": [("ok",)]}, {"f1": 10, "f2": 30}))
    out += [w for w in error_sites() + child_scenarios() if "finding" not in w.extra or finding_status(w.extra["finding"]) == "fixed"]
    # the witnesses of the fan-out protocol findings, once they are repaired (until then C06 runs them and classifies)
    out += [w for w in fan_witnesses() if finding_status(w.extra["finding"]) == "fixed"]
    # minimised / kept past failures (corpus/engine.json)
    for c in common.load_corpus("engine"):
        out.append(S(c["name"], c["machine"], c["input"], {k: [tuple(o) for o in v] for k, v in c["plans"].items()},
                     {k: v for k, v in c.get("delays", {}).items()}))
    # the same fan-outs under an execution time limit: exercised by the "stall" schedules (back stop, late events)
    for sc in list(out):
        if sc.name in ("par2-fail0", "par3-fail1", "par3-ok", "par-failstate-vs-wait", "par-fail-vs-nested", "map3-mc1-fail",
                       "map3-mc2-ok", "nested-ok", "seq-task-wait", "par-empty-map-branch"):
            out.append(S(sc.name + "-ttl", dict(json.loads(json.dumps(sc.machine)), TimeoutSeconds=20), sc.data, sc.plans, sc.delays,
                         sm_type=sc.sm_type, extra=dict(sc.extra)))
    # patch the map-fail scenarios: the worker fails on one item
    for s in out:
        fi = s.extra.get("fail_item")
        if fi is not None:
            s.plans = {"g": [("ok",)]}
            s.extra["fail_payload"] = fi
    return out


def error_sites():
    """every place at which a state handler can fail while it evaluates the state's own fields — an intrinsic function
    with an ill-typed argument (IF), a path that selects nothing (PM), a ResultPath through a number (RP) — for each handler
    (Pass, Task before the request and on the reply, Parallel / Map at the launch and at the join, Choice, Wait, Succeed),
    without and with a Catch that places the Error Output into the raw input, at the top level and (a sample) inside a
    Parallel branch beside a slow sibling; a Map with MaxConcurrency whose ItemSelector fails on an item of a *later* batch.
    Each such site has its own `except` arm in the engine that must fail the state (handle_error) and then acknowledge the
    event: the mutation campaign found arms no scenario reached (MUTATION.md)."""
    S = explore.Scenario
    IF, IFR, IFJ = {"v.$": "States.MathAdd($.s, 1)"}, {"v.$": "States.MathAdd($.fn, 1)"}, {"v.$": "States.MathAdd($[0], 1)"}
    PM, PMJ = {"v.$": "$.nope"}, {"v.$": "$[7].nope"}
    RP = "$.n.x"
    data = {"x": 1, "n": 5, "s": "str", "items": [1, "two"]}
    catch = [{"ErrorEquals": ["States.ALL"], "Next": "R", "ResultPath": "$.e"}]
    br = lambda: [{"StartAt": "A", "States": {"A": T("f1")}}, {"StartAt": "B", "States": {"B": {"Type": "Pass", "End": True}}}]
    it = lambda: {"StartAt": "A", "States": {"A": T("f1")}}
    sites = []                       # (name, state fields, may have a Catch)
    for kind, f in (("IF", {"Parameters": IF}), ("PM", {"Parameters": PM}), ("RP", {"ResultPath": RP}), ("OP", {"OutputPath": "$.nope"})):
        sites.append(("pass-" + kind, dict({"Type": "Pass"}, **f), False))
    for kind, f in (("IF", {"Parameters": IF}), ("PM", {"Parameters": PM})):
        sites.append(("taskpre-" + kind, dict({"Type": "Task", "Resource": FN + "f1"}, **f), True))
        sites.append(("parlaunch-" + kind, dict({"Type": "Parallel", "Branches": br()}, **f), True))
    for kind, f in (("IF", {"ResultSelector": IFR}), ("PM", {"ResultSelector": PM}), ("RP", {"ResultPath": RP}), ("OP", {"OutputPath": "$.nope"})):
        sites.append(("taskpost-" + kind, dict({"Type": "Task", "Resource": FN + "f1"}, **f), True))
    for kind, f in (("IF", {"ResultSelector": IFJ}), ("PM", {"ResultSelector": PMJ}), ("RP", {"ResultPath": RP}), ("OP", {"OutputPath": "$.nope"})):
        sites.append(("parjoin-" + kind, dict({"Type": "Parallel", "Branches": br()}, **f), True))
        sites.append(("mapjoin-" + kind, dict({"Type": "Map", "ItemsPath": "$.items", "ItemProcessor": it()}, **f), True))
    sel = {"v.$": "States.MathAdd($$.Map.Item.Value, 1)"}
    sites.append(("maplaunch-IF", {"Type": "Map", "ItemsPath": "$.items", "ItemSelector": sel, "ItemProcessor": it()}, True))
    sites.append(("maplaunch-PM", {"Type": "Map", "ItemsPath": "$.nope", "ItemProcessor": it()}, True))
    sites.append(("maplatebatch-IF", {"Type": "Map", "ItemsPath": "$.items", "MaxConcurrency": 1, "ItemSelector": sel, "ItemProcessor": it()}, True))
    sites.append(("choice-IP", {"Type": "Choice", "InputPath": "$.nope", "Choices": [{"Variable": "$.x", "NumericEquals": 1, "Next": "Z"}], "Default": "Z"}, False))
    sites.append(("choice-OP", {"Type": "Choice", "OutputPath": "$.nope", "Choices": [{"Variable": "$.x", "NumericEquals": 1, "Next": "Z"}], "Default": "Z"}, False))
    sites.append(("wait-IP", {"Type": "Wait", "InputPath": "$.nope", "Seconds": 1}, False))
    sites.append(("wait-OP", {"Type": "Wait", "OutputPath": "$.nope", "Seconds": 1}, False))
    sites.append(("wait-SP", {"Type": "Wait", "SecondsPath": "$.nope"}, False))
    inbranch = ("pass-OP", "taskpost-IF", "taskpost-RP", "maplaunch-IF", "maplatebatch-IF", "parjoin-RP", "mapjoin-PM", "wait-OP")
    out = []
    retry = [{"ErrorEquals": ["States.ALL"], "IntervalSeconds": 1, "MaxAttempts": 1}]
    for name, st, catchable in sites:
        handlers = (("", {}), ("-catch", {"Catch": catch})) if catchable else (("", {}),)
        if name == "maplatebatch-IF":
            handlers += (("-retry", {"Retry": retry}),)
        for tag, extra in handlers:
            state = dict(json.loads(json.dumps(st)), **extra)
            if state["Type"] != "Choice":
                state["Next"] = "Z"
            states = {"S": state, "Z": {"Type": "Pass", "End": True}, "R": {"Type": "Pass", "Result": "recovered", "ResultPath": "$.r", "End": True}}
            # C03-F6 (open): a Map re-entered for a later batch fails with its own re-entry entry still on the Branch stack;
            # unhandled at the top level the execution just fails, every other variant is a witness of the finding
            # (the fan-out protocol model has no input for "the launch of a later batch failed": these runs are outside its tie)
            late = {"finding": "C03-F6", "fan_tie": False, "fan_tie_why": "late-batch launch failure"} if name == "maplatebatch-IF" else {}
            out.append(S("errsite-%s%s" % (name, tag), {"StartAt": "S", "States": states}, data, {"f1": [("ok",)]}, {"f1": 10},
                         extra=dict({"n_rand": 1}, **(late if tag else {k: v for k, v in late.items() if k != "finding"}))))
            if name in inbranch and tag != "-retry":
                m = {"StartAt": "P", "States": {"P": {"Type": "Parallel", "End": True, "Branches": [
                    {"StartAt": "S", "States": json.loads(json.dumps(states))},
                    {"StartAt": "SB", "States": {"SB": T("fslow")}}]}}}
                out.append(S("errsite-%s%s-inbranch" % (name, tag), m, data, {"f1": [("ok",)], "fslow": [("ok",)]}, {"f1": 10, "fslow": 60},
                             extra=dict({"n_rand": 2}, **late)))
    out.append(S("errsite-succeed-IP", {"StartAt": "S", "States": {"S": {"Type": "Succeed", "InputPath": "$.nope"}}}, data, extra={"n_rand": 1}))
    return out


def fan_witnesses():
    """witnesses of the findings of the fan-out protocol model (`AslModel/FanProto.lean`, findings C06-F3 / F4 / F5), each
    tagged with its finding: run by C06 always; part of the shared corpus (C02, C03, C09, C11) once the finding is fixed"""
    S = explore.Scenario
    out = []

    def outer(handler, nested):
        return {"StartAt": "P", "States": {"P": dict({"Type": "Parallel", "Next": "Z", "Branches": [
            {"StartAt": "A", "States": {"A": T("fa")}},
            {"StartAt": "N", "States": {"N": nested}}]}, **handler), "Z": {"Type": "Pass", "End": True},
            "R": {"Type": "Pass", "Result": "recovered", "End": True}}}
    npar = {"Type": "Parallel", "End": True, "Branches": [{"StartAt": "X", "States": {"X": T("fx")}}]}
    # C06-F3: the enclosing state's failure is retried / caught, then the nested state of the sibling branch fails too
    for hn, handler in (("retry", {"Retry": [{"ErrorEquals": ["EA"], "IntervalSeconds": 1, "MaxAttempts": 1, "BackoffRate": 1.0}]}),
                        ("catch", {"Catch": [{"ErrorEquals": ["States.ALL"], "Next": "R"}]}),
                        ("retry-ok", {"Retry": [{"ErrorEquals": ["States.ALL"], "IntervalSeconds": 3, "MaxAttempts": 2}]})):
        out.append(S("nestfail-" + hn, outer(handler, npar), {"x": 1},
                     {"fa": [("err", "EA", "m"), ("ok",)], "fx": [("err", "EX", "m"), ("ok",), ("ok",)]}, {"fa": 5, "fx": 40},
                     extra={"finding": "C06-F3", "errors": ["EA", "EX"]}))
    # C06-F4: three levels; the outermost state fails while the innermost branch has events queued
    chain = {"StartAt": "X1", "States": {"X1": {"Type": "Pass", "Next": "X2"}, "X2": {"Type": "Pass", "Next": "X3"},
                                         "X3": {"Type": "Pass", "Next": "X4"}, "X4": {"Type": "Pass", "End": True}}}
    deep = lambda handler: {"StartAt": "P", "States": {"P": dict({"Type": "Parallel", "Next": "Z", "Branches": [
        {"StartAt": "A", "States": {"A": T("fa")}},
        {"StartAt": "Q", "States": {"Q": {"Type": "Parallel", "End": True, "Branches": [
            {"StartAt": "R", "States": {"R": {"Type": "Parallel", "End": True, "Branches": [chain]}}}]}}}]}, **handler),
        "Z": {"Type": "Pass", "End": True}, "C": {"Type": "Pass", "Result": "recovered", "End": True}}}
    out.append(S("depth3-fail-vs-pass", deep({}), {"x": 1}, {"fa": [("err", "EA", "m")]}, {"fa": 0},
                 extra={"finding": "C06-F4", "errors": ["EA"]}))
    out.append(S("depth3-caught-vs-pass", deep({"Catch": [{"ErrorEquals": ["EA"], "Next": "C"}]}), {"x": 1},
                 {"fa": [("err", "EA", "m")]}, {"fa": 0}, extra={"finding": "C06-F4", "errors": ["EA"]}))
    # C06-F5: the back stop ends the execution while a top-level event is stuck in the broker (metadata retained after a
    # caught failure), or while the top-level state waits out its retry delay
    slow = {"Type": "Parallel", "End": True, "Branches": [{"StartAt": "X", "States": {"X": {"Type": "Pass", "Next": "X2"},
                                                                                       "X2": {"Type": "Pass", "End": True}}}]}
    out.append(S("topguard-catch-ttl", {"TimeoutSeconds": 20, "StartAt": "P", "States": {"P": {"Type": "Parallel", "Next": "Z",
        "Catch": [{"ErrorEquals": ["EA"], "Next": "R"}], "Branches": [{"StartAt": "A", "States": {"A": T("fa")}},
                                                                     {"StartAt": "N", "States": {"N": slow}}]},
        "Z": {"Type": "Pass", "End": True}, "R": {"Type": "Pass", "Next": "R2"}, "R2": {"Type": "Pass", "End": True}}},
        {"x": 1}, {"fa": [("err", "EA", "m")]}, {"fa": 5}, extra={"finding": "C06-F5", "stall_at": [11, 12], "errors": ["EA"]}))
    out.append(S("topguard-retry-ttl", {"TimeoutSeconds": 20, "StartAt": "P", "States": {"P": {"Type": "Parallel", "End": True,
        "Retry": [{"ErrorEquals": ["EA"], "IntervalSeconds": 200, "MaxAttempts": 1}],
        "Branches": [{"StartAt": "A", "States": {"A": T("fa")}}, {"StartAt": "B", "States": {"B": T("fb")}}]}}},
        {"x": 1}, {"fa": [("err", "EA", "m"), ("ok",)], "fb": [("ok",), ("ok",)]}, {"fa": 5, "fb": 10},
        extra={"finding": "C06-F5", "stall_at": [10, 13], "errors": ["EA"]}))
    # C06-F6: a Task / Wait pending in a fan-out nested (depth 2 and 3) in a sibling branch when the enclosing state fails and
    # the failure is retried / caught (/ not handled: the execution ends, which has always cancelled everything)
    def leaf(kind):
        if kind == "task":
            return {"StartAt": "X", "States": {"X": T("fx")}}
        return {"StartAt": "X", "States": {"X": {"Type": "Wait", "Seconds": 2, "Next": "Y"}, "Y": {"Type": "Pass", "End": True}}}

    def nest(depth, kind):
        b = leaf(kind)
        names = ["N", "Q"]
        for d in range(depth - 1):
            nm = names[depth - 2 - d]
            b = {"StartAt": nm, "States": {nm: {"Type": "Parallel", "End": True, "Branches": [b]}}}
        return b
    handlers = (("retry", {"Retry": [{"ErrorEquals": ["EA"], "IntervalSeconds": 1, "MaxAttempts": 1}]}),
                ("catch", {"Catch": [{"ErrorEquals": ["EA"], "Next": "R"}]}), ("none", {}))
    for hn, handler in handlers:
        for depth in (2, 3):
            for kind in ("task", "wait"):
                m = {"StartAt": "P", "States": {"P": dict({"Type": "Parallel", "Next": "Z", "Branches": [
                    {"StartAt": "A", "States": {"A": T("fa")}}, nest(depth, kind)]}, **handler),
                    "Z": {"Type": "Pass", "End": True}, "R": {"Type": "Pass", "Result": "recovered", "End": True}}}
                out.append(S("nested-pending-%s-d%d-%s" % (hn, depth, kind), m, {"x": 1},
                             {"fa": [("err", "EA", "m"), ("ok",)], "fx": [("ok",)]}, {"fa": 5, "fx": 400},
                             extra={"finding": "C06-F6", "errors": ["EA"]}))
    return out


def child_scenarios():
    """a parent whose Task runs a child execution synchronously and gives up on it (TimeoutSeconds 1, or a sibling branch
    fails) while the child is blocked: on a single Task, or on a Task and a Wait inside a Parallel state.  The child is a
    started execution like any other (C02): cancelling what it is blocked on must end it.  The fan-out child is the witness
    of the open finding C02-F6 (left RUNNING for ever)."""
    S = explore.Scenario
    SYNC = "arn:aws:states:local:0123456789:states:startExecution.sync"
    kids = {
        "task": {"StartAt": "A", "States": {"A": T("f", Next="B"), "B": T("g")}},
        "fanout": {"StartAt": "P", "States": {"P": {"Type": "Parallel", "End": True, "Branches": [
            {"StartAt": "A", "States": {"A": T("f", Next="B"), "B": T("g")}},
            {"StartAt": "W", "States": {"W": {"Type": "Wait", "Seconds": 30, "End": True}}}]}}},
        # the child has a Wait behind it (ended by its timer) when the parent gives up: what the finished Wait registered
        # for cancellation must be gone, or cancelling the child's tasks ends the child twice
        "waited": {"StartAt": "W0", "States": {"W0": {"Type": "Wait", "Seconds": 0, "Next": "A"}, "A": T("f", Next="B"), "B": T("g")}},
        "waited-wait": {"StartAt": "W0", "States": {"W0": {"Type": "Wait", "Seconds": 0, "Next": "W1"},
                                                     "W1": {"Type": "Wait", "Seconds": 30, "End": True}}},
    }
    out = []
    for kn, kid in kids.items():
        call = {"Type": "Task", "Resource": SYNC, "End": True, "Parameters": {"Input.$": "$", "StateMachineArn": ARN + "child"}}
        tag = {"finding": "C02-F6"} if kn == "fanout" else {}
        out.append(S("child-%s-parent-times-out" % kn, {"StartAt": "T", "States": {"T": dict(call, TimeoutSeconds=1)}}, {"x": 1},
                     {"f": [("ok",)], "g": [("ok",)]}, {"f": 6000, "g": 10},
                     extra=dict({"machines": {"child": (kid, "STANDARD")}, "n_rand": 2}, **tag)))
        out.append(S("child-%s-parent-terminated" % kn, {"StartAt": "P", "States": {"P": {"Type": "Parallel", "End": True, "Branches": [
            {"StartAt": "T", "States": {"T": call}}, {"StartAt": "H", "States": {"H": T("h")}}]}}}, {"x": 1},
            {"f": [("ok",)], "g": [("ok",)], "h": [("err", "Sibling.Failed", "m")]}, {"f": 6000, "g": 10, "h": 300},
            extra=dict({"machines": {"child": (kid, "STANDARD")}, "n_rand": 2}, **tag)))
    return out


def open_witnesses(prop):
    """the scenarios that witness an open finding of `prop` (run by that property's check only, and classified; they join
    the shared corpus once the finding is fixed)"""
    return [w for w in error_sites() + child_scenarios()
            if w.extra.get("finding", "").startswith(prop + "-") and finding_status(w.extra["finding"]) == "open"]


def finding_status(fid):
    for f in common.load_findings():
        if f["id"] == fid:
            return f["status"]
    return None


def generated(rng, n, depth):
    out = []
    for i in range(n):
        g = machgen.Gen(rng, max_depth=depth)
        m = g.machine()
        out.append(explore.Scenario("gen%d" % i, m, machgen.gen_input(rng), g.fns,
                                    {fn: rng.choice([5, 10, 20, 40]) for fn in g.fns}))
    return out


_redis_n = [0]


def start_scenario(scn, redis=False):
    """Scenario.start with the per-item failure hook of the map-fail scenarios; `redis`: two engine instances, each with its
    own client of one (fake) Redis server, instead of one instance over in-memory stores"""
    fp = scn.extra.get("fail_payload")
    if fp is None:
        if redis:
            _redis_n[0] += 1
            return scn.start(instances=2, store_url="redis://engine-%d:6379" % _redis_n[0], share_stores=False)
        return scn.start()
    import sim as simmod
    s = simmod.Sim(instances=scn.instances)
    s.put_machine(ARN + "m1", json.loads(json.dumps(scn.machine)), type=scn.sm_type)

    def plan(n, payload):
        d = scn.delays.get(("g", enginerun.canon_payload(payload)), 10)
        if payload == fp:
            return simmod.Reply("ok", {"errorType": "Boom", "errorMessage": "m"}, d)
        return simmod.Reply("ok", {"fn": "g", "v": payload}, d)
    s.add_worker("g", plan)
    ea = s.start_execution(ARN + "m1", json.loads(json.dumps(scn.data)), name="e1")
    return s, ea, None


def settle(s, mon, ea, horizon_ms=900000, max_steps=2500):
    """after the terminal notification: let everything that is due within the next 15 virtual minutes
    happen (late replies, orphan retention, cancellations), so that the drain clause is judged at rest"""
    from sim import CLOCK
    n = 0
    while n < max_steps:
        ready = s.broker.pending or s.broker.ready()
        live = [t for t in s.wheel.live() if not s.is_heartbeat(t)]
        near = [t for t in live if t.at <= CLOCK.ms + horizon_ms]
        if not ready and not near:
            break
        st = s.canonical_step()
        if st is None:
            break
        s.do(st)
        mon(s, ea, st)
        n += 1


class Monitor(object):
    """observes one run step by step; `problems` collects (law id, detail)"""

    def __init__(self, scn):
        self.scn = scn
        self.pos = 0
        self.ledger = []            # Fr codes of the engine connection, whole run
        self.steps = []             # Fr codes per step
        self.problems = []
        self.notes = []
        self.note_pos = 0
        self.frozen = None
        self.histories = []         # snapshots to validate (final + a few)
        self.last_hist_len = 0
        self.step_no = 0
        self.acked_ids = set()
        self.rec = framecmp.Recorder()     # the frames per step with their messages (C03.frames_match_reference)

    def tagcode(self, fr):
        return fr.get("ch", 0) * 100000 + fr["tag"]

    def __call__(self, s, ea, step):
        self.step_no += 1
        self.rec(s, ea, step)
        log = s.broker.log
        cur = []
        engine_conns = {i.conn.ident for i in s.instances if i.alive and i.conn is not None}
        while self.pos < len(log):
            fr = log[self.pos]
            self.pos += 1
            if fr.get("conn") not in engine_conns:
                continue
            if fr["op"] == "deliver":
                cur.append(["d", self.tagcode(fr)])
            elif fr["op"] == "ack":
                cur.append(["a", self.tagcode(fr)])
                if fr.get("unknown"):
                    self.problems.append(("C03.ack_once", {"step": self.step_no, "frame": {k: v for k, v in fr.items() if k != "body"}}))
                if fr.get("message_id"):
                    self.acked_ids.add(fr["message_id"])
            elif fr["op"] == "publish":
                cur.append(["p"])
                # a task request carries the id of the event it works for: that event is held until the reply, so a
                # request leaving after its event was acknowledged is a consequence issued after the acknowledgement
                cid = (fr.get("props") or {}).get("correlation_id")
                if fr.get("exchange") == "" and cid and cid in self.acked_ids and not str(fr.get("routing_key", "")).startswith("asl_workflow"):
                    self.problems.append(("C03.request_after_ack", {"step": self.step_no, "queue": fr.get("routing_key"), "correlation_id": cid}))
        self.ledger += cur
        if step is not None:
            self.steps.append(cur)
        # notifications of this execution
        while self.note_pos < len(s.notifications):
            n = s.notifications[self.note_pos]
            self.note_pos += 1
            b = n["body"] or {}
            if b.get("detail", {}).get("executionArn") == ea:
                self.notes.append({"t": n["t"], "subject": n["subject"], "detail": b["detail"], "event": b})
        if self.scn.sm_type != "STANDARD":
            rec = s.record(ea)
            hist = s.history(ea)
            if rec is not None or hist:
                self.problems.append(("C09.express_stores_nothing", {"record": rec, "history_len": len(hist or [])}))
            return
        rec = s.record(ea)
        hist = s.history(ea) or []
        if getattr(self, "two_views", False) and len(s.instances) > 1 and all(i.alive for i in s.instances[:2]):
            rec1, hist1 = s.record(ea, 1), s.history(ea, 1) or []
            if cj(rec1) != cj(rec) or cj(hist1) != cj(hist):
                self.problems.append(("C11.any_instance_same_answers", {"step": self.step_no, "record_via_0": rec, "record_via_1": rec1,
                                                                       "history_len_via_0": len(hist), "history_len_via_1": len(hist1)}))
        # ---- C02: record shape and frozen-after-terminal
        if rec is not None:
            st = rec.get("status")
            term = st in ("SUCCEEDED", "FAILED")
            shape_ok = ((rec.get("stopDate") is not None) == term and
                        (rec.get("output") is not None) == (st == "SUCCEEDED") and
                        ((rec.get("error") is not None) == (st == "FAILED") or (st == "FAILED" and "error" in rec)) and
                        (not term or st != "SUCCEEDED" or rec.get("error") is None))
            if st == "FAILED" and ("error" not in rec or "cause" not in rec):
                shape_ok = False        # error *and* cause are set iff FAILED (a failure without a Cause text sets it to null)
            if st != "FAILED" and (rec.get("error") is not None or rec.get("cause") is not None):
                shape_ok = False
            if not shape_ok:
                self.problems.append(("C02.record_shape", {"step": self.step_no, "record": rec}))
            view = {k: rec.get(k) for k in ("status", "output", "error", "cause", "stopDate")}
            if self.frozen is not None and view != self.frozen:
                self.problems.append(("C02.record_frozen", {"step": self.step_no, "was": self.frozen, "now": view}))
            if term and self.frozen is None:
                self.frozen = view
        # ---- C11: the surfaces agree (record, last notification, last history event)
        if rec is not None and self.notes:
            d = self.notes[-1]["detail"]
            agree = (d.get("status") == rec.get("status") and d.get("input") == rec.get("input") and
                     d.get("output") == rec.get("output") and d.get("error") == rec.get("error") and
                     d.get("cause") == rec.get("cause"))
            ms_ok = (d.get("startDate") == int(rec["startDate"] * 1000) and
                     (d.get("stopDate") is None) == (rec.get("stopDate") is None) and
                     (rec.get("stopDate") is None or d.get("stopDate") == int(rec["stopDate"] * 1000)))
            secs_ok = rec["startDate"] < 1e11 and (rec.get("stopDate") is None or rec["stopDate"] < 1e11)
            subj_ok = self.notes[-1]["subject"] == "%s.%s" % (rec.get("stateMachineArn"), d.get("status"))
            if not (agree and ms_ok and secs_ok and subj_ok):
                self.problems.append(("C11.surfaces_agree", {"step": self.step_no, "record": rec, "notification": d,
                                                             "subject": self.notes[-1]["subject"]}))
            if hist:
                last = hist[-1]
                if rec.get("status") == "SUCCEEDED":
                    ok = last["type"] == "ExecutionSucceeded" and last.get("executionSucceededEventDetails", {}).get("output") == rec.get("output")
                elif rec.get("status") == "FAILED":
                    ok = last["type"] == "ExecutionFailed" and last.get("executionFailedEventDetails", {}).get("error") == rec.get("error") \
                        and last.get("executionFailedEventDetails", {}).get("cause") == rec.get("cause")
                else:
                    ok = last["type"] not in ("ExecutionSucceeded", "ExecutionFailed")
                if not ok:
                    self.problems.append(("C11.history_agrees", {"step": self.step_no, "record_status": rec.get("status"), "last_event": last}))
                if hist[0]["type"] == "ExecutionStarted" and hist[0].get("executionStartedEventDetails", {}).get("input") != rec.get("input"):
                    self.problems.append(("C09.started_carries_input", {"first": hist[0], "record_input": rec.get("input")}))
        # ---- C09: history snapshots (validated by the Lean recogniser after the run)
        if len(hist) != self.last_hist_len:
            if len(hist) < self.last_hist_len:
                self.problems.append(("C09.append_only", {"step": self.step_no, "was": self.last_hist_len, "now": len(hist)}))
            self.last_hist_len = len(hist)
            if self.frozen is not None and hist and hist[-1]["type"] not in ("ExecutionSucceeded", "ExecutionFailed"):
                self.problems.append(("C09.nothing_after_terminal", {"step": self.step_no, "last": hist[-1]}))
        # ---- C03: a RUNNING execution always has a carrier
        if rec is not None and rec.get("status") == "RUNNING" and step is not None:
            if not self.carriers(s):
                self.problems.append(("C03.carrier_exists", {"step": self.step_no, "volatile": s.snapshot_volatile()}))

    def carriers(self, s):
        if s.broker.pending or any(q.messages for q in s.broker.queues.values()):
            return True
        if any(ch.unacked for c in s.broker.connections for ch in c.channels):
            return True
        live = [t for t in s.wheel.live() if not s.is_heartbeat(t)]
        return bool(live)

    def finish(self, s, ea):
        """end-of-run laws"""
        if self.scn.sm_type != "STANDARD":
            return
        hist = s.history(ea) or []
        self.final_history = hist
        rec = s.record(ea)
        term = rec is not None and rec.get("status") in ("SUCCEEDED", "FAILED")
        # every execution that was started — a child launch too — has ended once nothing is left to carry any of them
        # forward (the run is over: no message, no unacknowledged delivery, no timer but heartbeats)
        if term and s.quiescent_or_idle() and not self.carriers(s):
            eng = s.engine()
            for arn in list(eng.executions.keys()):
                other = eng.executions.get(arn)
                if arn != ea and other is not None and dict(other).get("status") == "RUNNING":
                    self.problems.append(("C02.every_started_execution_ends", {"execution": arn, "record": dict(other),
                                                                               "volatile": s.snapshot_volatile()}))
        # every other execution this run started (children) is notified like any execution: RUNNING once, then at most one
        # terminal status, and nothing after it
        per = {}
        for n in s.notifications:
            d = ((n.get("body") or {}).get("detail") or {})
            if d.get("executionArn") and d.get("executionArn") != ea:
                per.setdefault(d["executionArn"], []).append(d.get("status"))
        for arn, sts in per.items():
            ok = sts[:1] == ["RUNNING"] and len(sts) <= 2 and (len(sts) < 2 or sts[1] != "RUNNING")
            if not ok and not any(p[0] == "C02.child_notified_once" for p in self.problems):
                self.problems.append(("C02.child_notified_once", {"execution": arn, "statuses": sts}))
        # drain clause
        if term and s.quiescent_or_idle():
            v = s.snapshot_volatile()
            leaks = {k: v[k] for k in ("unacked", "pending", "cancellers", "orphans") if v[k]}
            if v["branch_metadata"]:
                leaks["branch_metadata"] = v["branch_metadata"]
            if v["broker_unacked"]:
                leaks["broker_unacked"] = v["broker_unacked"]
            if v["timers"]:
                leaks["timers"] = v["timers"]
            if leaks:
                self.problems.append(("C03.drained", leaks))


def frames_law(chk, machine, mo, rec):
    """C03.frames_match_reference: the engine's frames, handler step by handler step, against the steps Asl.run predicts"""
    mode, fp, nst = framecmp.compare(mo, rec.steps, rec.start, framecmp.fan_entered(machine, mo))
    chk.dist("frames_vs_reference.%s" % mode)
    chk.dist("frames_vs_reference.%s.steps" % mode, nst)
    return [("C03.frames_match_reference", {"mode": mode, "differences": fp})] if fp else []


def hist_line(hist):
    evs = []
    for e in hist:
        name = ""
        for k, v in e.items():
            if k.endswith("EventDetails") and isinstance(v, dict) and "name" in v and ("StateEntered" in e["type"] or "StateExited" in e["type"]):
                name = v["name"]
        evs.append([e.get("id"), e.get("previousEventId"), int(round(e.get("timestamp", 0) * 1000)), e.get("type"), name])
    return "engine\thistory\t" + pj(evs)


def run_property(chk, prop, laws, quick_gen=300, thorough_gen=4000, scns=None, n_rand=None, expect=None, rule=None,
                 skip_multi=True, extra_scns=()):
    """run the scenario corpus x schedules with the monitor; report only the laws of `prop`"""
    quick = chk.tier == "quick"
    chk.lean_stage()
    import sim as simmod
    if not hasattr(simmod.Sim, "quiescent_or_idle"):
        def quiescent_or_idle(self):
            return not self.broker.pending and not self.broker.ready()
        simmod.Sim.quiescent_or_idle = quiescent_or_idle
    if scns is None:
        scns = corpus(chk.rng, quick) + generated(chk.rng, quick_gen if quick else thorough_gen, 2)
    scns = list(scns) + list(extra_scns)
    if n_rand is None:
        n_rand = 4 if quick else 40
    lines, line_meta = [], []
    pending_runs = []
    ordered_cases = []
    fan = prop == "C06"
    for scn in scns:
        hand = not scn.name.startswith("gen")
        # (a sequential machine has one schedule up to heartbeat placement: its scenarios ask for fewer random ones)
        scheds = ["canonical"] + ["random"] * (min(n_rand, scn.extra.get("n_rand", n_rand)) if hand else 1)
        if prop == "C11" and hand and scn.extra.get("fail_payload") is None and "TimeoutSeconds" not in scn.machine \
                and not scn.name.startswith("oversize"):
            # the same over a Redis-backed store shared by two engine instances (each its own client): the record and the
            # history read through either instance are the same
            scheds += ["redis-canonical", "redis-random"]
            if scn.name in ("seq-task-wait", "seq-retry-then-ok", "seq-catch", "par2-ok", "map3-mc1-ok", "seq-invoke-longform"):
                # ... and with every engine instance dying and coming back while the first state holds the start event: the
                # record survives in Redis, the redelivered start event must not start the execution again (one RUNNING
                # notification, the same startDate, the history kept)
                scheds += ["redis-crash"]
        if "TimeoutSeconds" in scn.machine:
            # the broker stalls: nothing is delivered for over a minute of virtual time, at a random moment or right
            # after the terminal notification, while timers and heartbeats (the once-a-minute back stop) keep firing
            scheds += ["stall"] * max(4, n_rand)
            # ... and, for a scenario that names them, at given steps of the canonical schedule
            scheds += ["stall@%d" % k for k in scn.extra.get("stall_at", [])]
        for kind in scheds:
            mon = Monitor(scn)
            redis = kind.startswith("redis")
            s, ea, pl = start_scenario(scn, redis=redis)
            mon.two_views = redis
            if redis:
                kind = kind[len("redis-"):]
            # C06: the run is also abstracted into the alphabet of the fan-out protocol model (fanproto.py)
            tracer = fanproto.Tracer(s, ea) if (fan and not redis and scn.sm_type == "STANDARD" and scn.extra.get("fan_tie", True)) else None
            if fan and not scn.extra.get("fan_tie", True):
                chk.dist("fanproto.unsupported.%s" % scn.extra.get("fan_tie_why", "scenario"))
            mon(s, ea, None)
            g = None
            stall_at = None if kind != "stall" else chk.rng.choice(["terminal", "terminal", chk.rng.randrange(0, 14)])
            forced = kind.startswith("stall@")
            if forced:
                stall_at, kind = int(kind[len("stall@"):]), "stall"
            stall_until = None
            crashed = kind != "crash"
            while s.steps < 2500:
                if not crashed and s.steps >= 3:
                    crashed = True
                    for i in range(len(s.instances)):
                        s.do(("crash", i))
                        s.do(("restart", i))
                        mon(s, ea, ("restart", i))
                    continue
                if explore.terminal_seen(s, ea) and g is None:
                    g = s.steps + 40
                    if stall_at == "terminal":
                        stall_at = s.steps
                if stall_at is not None and stall_at != "terminal" and s.steps >= stall_at and stall_until is None:
                    stall_until = simmod.CLOCK.ms + chk.rng.choice([65000, 125000]) + 1000 * scn.machine["TimeoutSeconds"]
                if stall_until is not None and simmod.CLOCK.ms < stall_until:
                    tm = [x for x in s.enabled() if x[0] == "timer"]
                    if tm:
                        s.do(tm[0])
                        mon(s, ea, tm[0])
                        continue
                    stall_until = simmod.CLOCK.ms      # nothing is armed: the stall is over
                if g is not None and s.steps >= g and (stall_until is None or simmod.CLOCK.ms >= stall_until):
                    break
                if kind in ("canonical", "crash") or forced:
                    st = s.canonical_step()
                    if st is None:
                        break
                else:
                    en = explore.interesting(s)
                    if not en:
                        if s.quiescent():
                            break
                        en = explore.interesting(s, include_heartbeat=True)
                        if not en:
                            break
                    st = en[chk.rng.randrange(len(en))]
                s.do(st)
                mon(s, ea, st)
            settle(s, mon, ea)
            mon.finish(s, ea)
            trace = [list(x) for x in s.trace]
            case = {"scenario": scn.name, "machine": scn.machine, "input": scn.data, "plans": scn.plans,
                    "delays": {str(k): v for k, v in scn.delays.items()}, "sm_type": scn.sm_type, "schedule": trace}
            key = cj([scn.name if hand else scn.machine, scn.data, trace])
            chk.count(key, len(trace) > 2)
            chk.dist("schedule.%s" % kind)
            chk.dist("scenario.%s" % ("hand" if hand else "generated"))
            fv = explore.final_view(s, ea)
            chk.dist("status.%s" % fv.get("status"))
            if len(chk.cov["samples"]) < 3 and hand and kind == "random":
                chk.sample({"scenario": scn.name, "schedule": trace[:10], "final": fv,
                            "step_frames": mon.steps[:6]})
            # engine exceptions escaping into the IO loop are everybody's problem
            probs = list(mon.problems)
            if s.errors:
                probs.append((prop + ".no_escaping_exception", {"errors": s.errors[:1]}))
            # executions that never become terminal (hand scenarios are all terminating)
            if fv.get("status") not in ("SUCCEEDED", "FAILED") and s.steps < 2500:
                probs.append(("C02.terminal_reached", {"final": fv, "volatile": s.snapshot_volatile()}))
            # the reference semantics of the whole run is asked from the driver once, after all runs
            # C09.history_matches_reference: where the reference semantics speaks about the run — a STANDARD execution,
            # not under a stalled broker, workers driven by a plan (an oracle exists), ended
            # (a machine with an execution time limit: under the canonical schedule only — when the limit runs out relative
            # to everything else is the schedule's otherwise)
            speaks = (pl is not None and kind != "stall" and ("TimeoutSeconds" not in scn.machine or kind == "canonical")
                      and not scn.extra.get("machines") and not scn.extra.get("illformed")
                      and fv.get("status") in ("SUCCEEDED", "FAILED") and not s.errors)
            want_hist = "C09" in laws and speaks and scn.sm_type == "STANDARD"
            # C11.notifications_match_reference: the same runs (EXPRESS ones too: they are notified like any other)
            want_notes = "C11" in laws and speaks
            # C03.frames_match_reference: the canonical ones of those runs (the prediction is that of the canonical schedule)
            want_frames = "C03" in laws and speaks and kind == "canonical"
            ab = None
            if tracer is not None:
                # the direct law: no task / wait of a dead attempt survives the step in which its enclosing attempt failed
                surv = fanproto.dead_survivors(tracer)
                if surv:
                    probs.append(("C06.no_pending_task_of_dead_attempt", {"survivors": surv[:4], "steps_with_survivors": len(surv)}))
                try:
                    ab = fanproto.Abstraction(tracer, scn.machine).run()
                except fanproto.Unsupported as e:
                    chk.dist("fanproto.unsupported.%s" % e)
            pending_runs.append({"probs": probs, "case": case, "hand": hand, "kind": kind, "fan": ab,
                                 "reqs": enginerun.annotate_due([{"t": q["t"], "queue": q["queue"], "payload": q["payload"]} for q in s.rpc_requests], pl),
                                 "oracle": pl.oracle() if pl is not None else None, "ea": ea,
                                 "hist": (list(getattr(mon, "final_history", []) or []), len(s.rpc_requests),
                                          [q["t"] for q in s.rpc_requests]) if want_hist else None,
                                 "notes": [n["detail"] for n in mon.notes] if want_notes else None,
                                 "mline": (__import__("props.c01", fromlist=["x"]).model_line(scn.machine, scn.data, ea, pl.oracle())
                                           if (pl is not None and (expect is not None or (skip_multi and not hand) or want_hist or want_notes or want_frames)) else None),
                                 "frames": mon.rec if want_frames else None,
                                 "pre": expect.pre(scn, s, ea, pl, fv) if expect is not None else None, "scn": scn, "fv": fv})
            # Lean recognisers over what the engine did
            if scn.sm_type == "STANDARD":
                if "C09" in laws:
                    lines.append(hist_line(getattr(mon, "final_history", [])))
                    line_meta.append(("history", case, getattr(mon, "final_history", [])))
                if "C03" in laws:
                    lines.append("engine\tledger\t" + pj(mon.ledger))
                    line_meta.append(("ledger", case, s.snapshot_volatile()))
                    for i, fs in enumerate(mon.steps):
                        # (a step that cancels a child execution's tasks handles two executions' events, each acknowledged
                        # after its own consequences: [p a p a] — the one-event ordering law is not asked of those scenarios)
                        if any(f[0] == "a" for f in fs) and any(f[0] == "p" for f in fs) and not scn.extra.get("machines"):
                            lines.append("engine\tordered\t" + pj(fs))
                            oc = dict(case, step=i, step_kind=trace[i] if i < len(trace) else None)
                            ordered_cases.append((oc, case))
                            line_meta.append(("ordered", oc, fs))
                if "C02" in laws or "C11" in laws:
                    lines.append("engine\tnotes\t" + pj([n["detail"]["status"] for n in mon.notes]))
                    line_meta.append(("notes", case, [n["detail"]["status"] for n in mon.notes]))
            s.close()
    # --- C06.matches_fan_protocol: the protocol model, run on the abstracted inputs of every run, against what the engine did
    # a run of a scenario that is the witness of an open finding is explained by that finding (and by nothing else)
    by_tag = lambda pr: ((lambda f, case, impl, model: f["id"] == pr["scn"].extra["finding"])
                         if pr is not None and pr["scn"].extra.get("finding") else None)
    classify_for = fan_protocol_stage(chk, pending_runs) if fan else by_tag
    # --- outcome laws that need the reference semantics: one batched driver call
    mlines = [pr["mline"] for pr in pending_runs if pr["mline"]]
    # the schedules of one scenario mostly ask the same question (same machine, input and worker answers): asked once
    uniq = list(dict.fromkeys(mlines))
    answer_of = dict(zip(uniq, common.driver(uniq, shards=8)))
    chk.dist("reference_runs.asked", len(mlines))
    chk.dist("reference_runs.distinct", len(uniq))
    manswers = iter([answer_of[l] for l in mlines])
    for pr in pending_runs:
        mo = None
        if pr["mline"]:
            a = next(manswers).split("\t")
            if a[0] == "ok":
                mo = json.loads(a[1])
                if pr["kind"] == "canonical" and pr.get("oracle") is not None:
                    mo = __import__("props.c01", fromlist=["x"]).settled_model(
                        chk, mo, pr["scn"].machine, pr["scn"].data, pr["ea"], pr["oracle"], pr["reqs"])
        probs = pr["probs"]
        if expect is not None:
            probs = probs + expect.post(pr["scn"], pr["fv"], pr["pre"], mo)
        if (skip_multi or pr["scn"].extra.get("tie_only")) and not pr["hand"] and mo is not None and \
                mo.get("tieFail" if pr["kind"] == "canonical" else "multiFail"):
            chk.dist("skipped.multiple_failures(C06)")
            continue
        if pr["hist"] is not None and mo is not None:
            # under the canonical schedule every event is handled the instant it is due: the instants are compared too
            canon = pr["kind"] == "canonical"
            mode, hp, nev = enginerun.compare_history(pr["case"]["machine"], mo, pr["hist"][0], pr["hist"][1], timed=canon,
                                                      request_instants=pr["hist"][2] if canon else None, requests=pr["reqs"])
            chk.dist("history_vs_reference.%s.%s" % (pr["kind"], mode))
            chk.dist("history_vs_reference.%s.events" % mode, nev)
            if hp:
                probs = probs + [("C09.history_matches_reference", {"mode": mode, "differences": hp})]
        if pr["notes"] is not None and mo is not None:
            nmode, np_ = enginerun.compare_notifications(mo, pr["notes"], pr["case"]["input"], timed=pr["kind"] == "canonical",
                                                            requests=pr["reqs"], machine=pr["case"]["machine"])
            chk.dist("notifications_vs_reference.%s.%s" % (pr["kind"], nmode))
            if np_:
                probs = probs + [("C11.notifications_match_reference", {"differences": np_})]
        if pr.get("frames") is not None and mo is not None and not enginerun.time_limit_incomparable(pr["case"]["machine"], mo, pr["reqs"]):
            probs = probs + frames_law(chk, pr["case"]["machine"], mo, pr["frames"])
        seen = set()
        for law, detail in probs:
            if not any(law.startswith(l) for l in laws) or law in seen:
                continue
            seen.add(law)
            chk.report("impl-violates-law", pr["case"], impl=detail, law=law, classify=classify_for(pr))
    answers = common.driver(lines, shards=8)
    seen_ord = set()
    run_of = {id(pr["case"]): pr for pr in pending_runs}
    for oc, case in ordered_cases:
        run_of[id(oc)] = run_of.get(id(case))
    for a, (kind, case, extra) in zip(answers, line_meta):
        classify = classify_for(run_of.get(id(case)))
        parts = a.split("\t")
        chk.cov["evaluations"] += 1
        if parts[0] != "ok":
            chk.dist("model." + parts[0])
            continue
        m = json.loads(parts[1])
        if kind == "history" and not m["wf"]:
            chk.report("impl-violates-law", case, impl={"history": [[e.get("id"), e.get("previousEventId"), e.get("type")] for e in extra]},
                       model=m, law="C09.WFHistory (Lean recogniser: numbering, timestamps, terminal last, starts with ExecutionStarted, brackets)",
                       classify=classify)
        elif kind == "ledger":
            if m["bad"]:
                chk.report("impl-violates-law", case, impl={"ledger": "ack of a tag that is not outstanding"}, model=m, law="C03.ack_once (Lean ledger)",
                           classify=classify)
            elif len(m["unacked"]) != extra["broker_unacked"]:
                chk.report("impl-differs-from-spec", case, impl={"broker_unacked": extra["broker_unacked"]}, model=m,
                           law="C03.ledger agrees with the broker's own accounting", classify=classify)
        elif kind == "ordered" and m is False:
            sig = cj([case["scenario"], extra])
            if sig in seen_ord:
                continue
            seen_ord.add(sig)
            chk.report("impl-violates-law", case, impl={"step_frames": extra}, model={"stepOrdered": False},
                       law="C03.ack_after_consequences (Lean stepOrdered: nothing is published after an acknowledgement within a handler step)",
                       classify=classify)
        elif kind == "notes" and m is False:
            chk.report("impl-violates-law", case, impl={"notifications": extra}, model={"notesOK": False},
                       law=("C02.notifications are a prefix of [RUNNING, T] (Lean lifecycle automaton)" if "C02" in laws else
                            "C11.each status change is published exactly once (Lean lifecycle automaton over the notifications)"),
                       classify=classify)
    chk.cov["streams"]["scenarios"] = len(scns)
    chk.cov["rule"] = rule or ("hand-written scenarios (sequential machines of every state type incl. retry/catch/path errors and an EXPRESS "
                       "machine; Parallel 2-3 and Map with MaxConcurrency 0-2, all succeeding or with exactly one unhandled failing "
                       "branch / item; Fail-vs-Wait-vs-Task siblings; nesting) under the canonical and %d seeded random schedules, "
                       "plus generated machines (canonical + 1 random schedule); the laws are evaluated after every step; "
                       "distinct = distinct (scenario, schedule); non-trivial = more than 2 steps; C09.history_matches_reference: "
                       "for STANDARD executions that ended (no stalled broker; machines with a top-level TimeoutSeconds under the canonical schedule only) the complete history (type, name, "
                       "compared details, ids 1..n; …Aborted left out) and the number of task requests are compared with the history "
                       "Asl.run predicts under every explored schedule — as sequences without fan-outs, as multisets with fan-outs "
                       "none of which failed, inclusion of the Execution… / StateExited / LambdaFunctionSucceeded events otherwise; "
                       "C11.notifications_match_reference: the status notifications (statuses in order, input / output / error "
                       "payload) against the model's; C03.frames_match_reference (canonical runs of those executions): the broker "
                       "frames of the engine connection handler step by handler step — deliver / publish (event with its state and "
                       "branch, task request, notification) / ack, each with the message it concerns (matched by address: state, "
                       "branch indices, occurrence; request by its event, reply by its request), at their instants — against the "
                       "steps Asl.run predicts (harness/framecmp.py): as sequences without fan-outs, per instant as multisets of "
                       "steps with fan-outs none of which failed, per instant as multisets of frames when two unlike branches "
                       "complete a join at the same instant, counts + the engine's own ledger when a fan-out failed "
                       "(frames_vs_reference.* in the distribution)"
                       % n_rand)


def open_quirks(prop="C06"):
    """the model switches of the open findings of the fan-out protocol: {letter: finding id}"""
    return {f["quirk"]: f["id"] for f in common.load_findings() if f["property"] == prop and f["status"] == "open" and f.get("quirk")}


def fan_protocol_stage(chk, pending_runs):
    """runs the Lean protocol model (with the switches of the open findings: the code as it is) on the abstracted input
    sequence of every run and compares it step by step with the engine; adds `C06.matches_fan_protocol` to the problems of
    a run that differs.  Returns classify_for(run): a run with problems is explained by an open finding exactly when the
    model agrees with the engine with that finding's switch on and disagrees with it off."""
    oq = open_quirks()
    letters = "".join(sorted(oq))
    runs = [pr for pr in pending_runs if pr.get("fan") is not None]
    answers = common.driver([fanproto.line(pr["fan"], letters) for pr in runs], shards=8)
    for pr, a in zip(runs, answers):
        ab = pr["fan"]
        chk.dist("fanproto.runs_compared")
        chk.dist("fanproto.steps_compared", len(ab.groups))
        chk.dist("fanproto.inputs", ab.n_inputs)
        for k, n in ab.kinds.items():
            chk.dist("fanproto.input.%s" % k, n)
        d = fanproto.compare(ab, a)
        pr["fan_agrees"] = not d
        if d:
            step, what, model, engine = d[0]
            pr["probs"].append(("C06.matches_fan_protocol", {"step": step, "what": what, "model": model, "engine": engine,
                                                              "inputs_up_to_there": [g["inputs"] for g in ab.groups if g["step"] <= step][-6:]}))
    # which open finding explains a run that has problems: asked for when a problem of the run is reported
    cache = {}

    def explain(pr):
        if id(pr) not in cache:
            fid = None
            if pr.get("fan") is not None and pr.get("fan_agrees") and oq:
                qs = sorted(oq)
                diffs = []
                for q, a in zip(qs, common.driver([fanproto.line(pr["fan"], letters.replace(q, "")) for q in qs])):
                    d = fanproto.compare(pr["fan"], a)
                    if d:
                        diffs.append((d[0][0], oq[q]))
                if diffs:
                    fid = sorted(diffs)[0][1]           # the switch whose absence shows first
            cache[id(pr)] = fid
        return cache[id(pr)]

    def classify_for(pr):
        if pr is None:
            return None
        return lambda f, case, impl, model: f["id"] == explain(pr)
    return classify_for


def replay_case(chk, path):
    with open(path) as f:
        rp = json.load(f)
    c = rp["case"]
    scn = explore.Scenario(c["scenario"], c["machine"], c["input"],
                           {k: [tuple(o) for o in v] for k, v in (c.get("plans") or {}).items()}, {}, sm_type=c.get("sm_type", "STANDARD"))
    for x in corpus(chk.rng, True):
        if x.name == c["scenario"]:
            scn = x
    mon = Monitor(scn)
    s, ea, pl = start_scenario(scn)
    mon(s, ea, None)
    for st in c["schedule"]:
        try:
            s.do(tuple(st))
        except KeyError as e:
            print("schedule diverged at", st)
            break
        mon(s, ea, tuple(st))
    import sim as simmod
    if not hasattr(simmod.Sim, "quiescent_or_idle"):
        simmod.Sim.quiescent_or_idle = lambda self: not self.broker.pending and not self.broker.ready()
    mon.finish(s, ea)
    print("final:", cj(explore.final_view(s, ea)))
    for law, d in mon.problems:
        print("PROBLEM", law, json.dumps(d, default=str)[:400])
    print("step frames:", mon.steps)
    print("volatile:", s.snapshot_volatile())
    return 0
